"""Regenerates /verif/MANIFEST.json from the table below (run after adding a rules/cXX.py)."""
import json
import pathlib

V = pathlib.Path(__file__).resolve().parent.parent
props = [json.loads(l) for l in (V / "properties.jsonl").read_text().splitlines() if l.strip()]

CHECKS = {
    "C01": dict(
        text="Static: SYNC table folded, checked and pinned; the real Burst.__init__/as_bits/interleave/deinterleave/extract_data are analysed by abstract interpretation with the payload PDU as a box of N symbolic bits: "
             "for 8 payload kinds x 4 data SYNC patterns x symbolic colour code the bits handed to the PDU decoder are exactly the assembled payload atoms (through the real BPTC(196,96); rate 3/4 via the C10 inverse pair), "
             "data type/colour code equal, re-serialisation identical; voice bursts around each voice SYNC (parsed with the burst type given AND without it: the library must recognise the pattern itself and report a vocoder burst starting a superframe) and around a valid EMB word with 32 symbolic embedded bits re-serialise identically on every feasible path "
             "(affine path constraints prove that a valid EMB never collides with a SYNC pattern). Population-count thresholds on the centre bits become conditions that remember their operands; a difference on such a path is reported only with a concrete witness; SyncPatterns look-ups are resolved by interpreting _missing_ whenever it computes the member it returns.",
        technique="constant folding + table algebra; abstract interpretation over GF(2)-affine bit forms with affine path constraints",
        note="trusted: C02/C03/C06 verdicts (component codes and PDU codecs), bitarray models; the C10 table rules the rate 3/4 inverse pair rests on are re-evaluated inside this check; EMB voice bursts are parsed with burst_type=Vocoder (the library documents that they must be marked by the caller)",
        ref="DESIGN.md §3 C01"),
    "C02": dict(
        text="Static: the 196-entry interleave table is folded from the source and checked exhaustively against the ETSI formula; "
             "encode/extract/repair plumbing is decided for all 2^96 messages at once by abstract interpretation over GF(2)-affine forms "
             "(systematic placement, every row/column of the transmitted matrix a Hamming codeword, extractor reads where the encoder writes, "
             "repair leaves an error-free codeword unaltered). Repair clause: one abstract run per error pattern of weight <= 2 with the MESSAGE symbolic — encode, invert the pattern's positions, the real deinterleave_data_bits with repair "
             "(row / column passes in source order; for a known non-zero syndrome the real check_and_correct is interpreted, so the inverted bit is the code's own choice): every syndrome is a constant, one path, output bit i must be message atom i. "
             "Quick: 196 single errors, all 2,535 pairs within one matrix row or column, 195 pad-bit pairs, every 17th of the other pairs; thorough: all 19,306 patterns.",
        technique="constant folding + table algebra; abstract interpretation over GF(2)-affine bit forms (array provenance); finite case split over error patterns with the message symbolic",
        note="trusted: CPython ast, sa/bitabs.py models of bitarray/numpy subscripts, C06 for the component codes' generate/check summaries; the repair clause enumerates error patterns (a finite case split), it is not symbolic in the error positions",
        ref="DESIGN.md §3 C02"),
    "C03": dict(
        text="Static: every reader/writer pair of the layer-2/3 PDUs (13 classes, 48 discriminator branches) is analysed by abstract interpretation on a symbolic wire: per reader branch the object is "
             "built through the real constructor, the writer is run on it and each output position is compared with the wire bit it must reproduce (decode-then-encode), then all fields are replaced by "
             "symbols to find field bits that are transmitted but not decoded; crashes (Type/Attribute/Overflow errors for all or some inputs) are reported, with the ValueError exit of an enumeration that raises for undefined values as a reader path of its own (a handler that swallows it is seen); "
             "the UDP/IPv4 compressed header is checked against its pinned layout (extended headers present iff SPID / DPID is 0); element enumerations are evaluated over their whole bit width for totality, and every member of a wire enumeration must serialise (a member whose value is not an integer is reported). Decides layout symmetry for all field values at once; float quantisation of GPS Info is not decided.",
        technique="abstract interpretation over GF(2)-affine bit forms with path enumeration on discriminators (trace partitioning); finite-domain evaluation of enum _missing_",
        note="trusted: CPython ast, bitarray/int operation models, enum fields assumed to hold defined members on the symmetric pass",
        ref="DESIGN.md §3 C03"),
    "C04": dict(
        text="Static: per constructor path the value of each 'ok' indicator is obtained as a constant or a structural condition; FEC words: accepted set == codeword set on every path (GF(2) rank argument); "
             "CRC PDUs: computed side covers every transmitted field bit, uses the PDU's own mask and inversion, is compared with exactly the received check bits, no path accepts without comparing "
             "(in-band sentinel), generate->serialise->parse gives a provably True indicator (through the constructor where the reader never generates); slot type / EMB: for every value of the information bits (folded enumeration values included) the accepted check values are exactly those that make the RECEIVED word a codeword; "
             "CRC PDUs: the serialised check field carries the computed value msb-first behind the protected bits (the placement for which the CRC's burst guarantee holds across the boundary). 15 findings are known and listed in known_findings.json: the constructors' in-band sentinel of 8 CRC PDUs and 7 lsb-first / leading check-field placements (serialised formats).",
        technique="abstract interpretation over GF(2)-affine bit forms; CRC engines as uninterpreted functions; linear algebra on path constraints",
        note="trusted: C05/C06 verdicts for the engines behind the summaries; the weight-<=3 clause as such is not enumerated (it needs the code's distance at the PDU's length); burst detection across the data / check boundary is decided through check/field-order; HRNP checksum is covered under C12",
        ref="DESIGN.md §3 C04"),
    "C05": dict(
        text="Static: CRC parameters and masks folded and compared with pinned ETSI values; the real register classes are analysed by abstract interpretation over GF(2)-affine forms "
             "(exact if-conversion of the shift/xor branches; lookup table obtained by constant evaluation and indexed exactly because it is GF(2)-linear): for all five configurations, both modes "
             "and every analysed message length the checksum equals message(x)*x^w mod g(x) for ALL messages of that length, with one calculator reused across lengths (history independence); "
             "front ends (inversion, mask, byte swap/bit order, parts assembly, check==calculate==given; a check() that refuses some received value of the field's own width instead of comparing it is reported) are decided on top of the real engine.",
        technique="constant folding; abstract interpretation over GF(2)-affine forms with if-conversion and linear-table lookup",
        note="trusted: CPython ast, bitarray operation models (endianness, shifts, lexicographic compare); lengths analysed are listed in the evidence (quick: 26 lengths up to 96 bits, thorough: 1..129,144,192); burst detection inside a PDU additionally needs the check field placed msb-first behind the data (C04 check/field-order); distances at PDU length are not computed",
        ref="DESIGN.md §3 C05"),
    "C06": dict(
        text="Static, exhaustive over the finite tables: each generator matrix is folded from the source and checked with the checker's own GF(2) algebra "
             "(systematic, rank, weight of all 2^k codewords, H=[P^T|I], distinct columns, SEC-DED); generate/check/check_and_correct are analysed by abstract "
             "interpretation of the real methods for all messages at once (generate(x)=x*G, acceptance condition equivalent to H*w=0 with no codeword excluded by a special case, check(generate(x)) true on every path, every single error repaired, "
             "every double error of (16,11,4) reported); a checker with several accepting paths is counted exactly (disjoint affine sets inside the code whose sizes add up to 2^k).",
        technique="constant folding + GF(2) table algebra (exhaustive); abstract interpretation over GF(2)-affine forms",
        note="trusted: CPython ast, sa/algebra.py, numpy/bitarray operation models, pinned ETSI matrices in spec/fec_matrices.json",
        ref="DESIGN.md §3 C06"),
    "C07": dict(
        text="Static: the generator's block-size tables are folded and compared with the Rate*DataTypes members and resolve(); for each rate x mode x analysed payload length the real pipeline "
             "(generate_full_data_transmission -> Burst.as_bytes -> Burst.from_bytes -> Transmission.process_packet with an effect-recording observer) is analysed by abstract interpretation with symbolic payload octets: "
             "one start + one data end, the fragmentation is the minimal one (the pad never fills a whole intermediate block; every rate / mode has a pad-0 length among the analysed ones), received data == payload atoms + announced zero pad, CRC-32 == uninterpreted CRC32 of that data in transmitted byte order, confirmed CRC-9 indicators provably True, "
             "exact preamble countdown; plus two transmissions back to back on one tracker. Plus generate_csbk_preambles interpreted alone up to totals of 255 (8-bit blocks-to-follow field): preamble j announces exactly the bursts that follow.",
        technique="constant folding; abstract interpretation of the whole generate/serialise/parse/track pipeline over GF(2)-affine forms, per analysed length",
        note="trusted: C02/C05/C10 for BPTC, CRC engines (uninterpreted) and trellis (inverse pair); lengths analysed are listed in the evidence (quick 27 lengths up to 60 octets, thorough 0..129,255..257,400); other lengths are not decided",
        ref="DESIGN.md §3 C07"),
    "C08": dict(
        text="Static, inductive over histories: for every tracker state satisfying the state invariant and every next burst kind (with the decoded PDU's decision fields symbolic) the real Transmission.process_packet is analysed with observers as "
             "effect stubs: never raises, ended(K) only while K is open, the ended event hands over the current header and the very blocks list, afterwards idle with fresh list / no header / fresh stream id / reset counters, invariant preserved; "
             "A-F label table (7 previous labels x 3 burst kinds), Timeslot receive-sequence counter exact for all 256 values and the tracker's own (a burst carrying another sequence number does not set it), observer isolation with observers raising an Exception and a BaseException-only kind, overrides call super. The compressed UDP/IPv4 decoder that end_data_transmission runs over the collected user data is the real one on symbolic octets (not a stub), values an element enumeration refuses are raising paths; the first preamble starts the count-down with the announced number for all 256 values; after a delivered end the tracker may be idle or already in the next transmission.",
        technique="abstract interpretation of the state machine on (abstract state) x (burst kind) products with effect recording; inductive state invariant",
        note="trusted: PDU decoders/BPTC stubbed (C02/C03); the invariant enumerates header kinds {none, full LC, data header}; 'never raises' is relative to those stubs",
        ref="DESIGN.md §3 C08"),
    "C09": dict(
        text="Static: tables of the three variable-length BPTCs folded and checked against ETSI B.2 transmit order and flag sets; abstract interpretation over GF(2)-affine forms "
             "decides for all messages: systematic placement, zero Hamming syndrome of every data row, column parity (even/odd), checksum read-back in the consumers' bit order, "
             "identical output for the three input forms, extractor positions.",
        technique="constant folding + table algebra; abstract interpretation over GF(2)-affine bit forms",
        note="trusted: CPython ast, bitarray/numpy view models, checksum functions treated as uninterpreted functions of their input bits",
        ref="DESIGN.md §3 C09"),
    "C10": dict(
        text="Static: trellis tables folded, checked exhaustively and pinned; decode(encode(b)) == b decided for all 2^144 blocks by abstract interpretation in which "
             "data-keyed table look-ups become exact finite functions (truth tables over <=12 bit atoms) and data-dependent branches are analysed per assignment and merged; "
             "bytes/bits agreement, interleave/deinterleave inverse permutations; rejection of impossible points decided by constant evaluation of the real decoder on 136 crafted streams (every state x every point no encoder emits from it, at the first, second and last symbol).",
        technique="constant folding + table algebra; abstract interpretation with a finite-function (truth-table) domain and per-statement case splitting",
        note="trusted: CPython ast, bitarray/array models; rejection of impossible points is decided for the 136 crafted single-error streams (constant evaluation), not for every corrupted stream",
        ref="DESIGN.md §3 C10"),
    "C11": dict(
        text="Static: GF(2^8) tables folded and compared with the field computed by the checker; log_multiply evaluated exactly in the finite-function domain for all 65 536 operand pairs; "
             "generate/check analysed by abstract interpretation over GF(2)-affine forms of a symbolic message, word and mask (multiplication by a constant is linear): all syndromes of every generated "
             "word vanish with the mask removed; check is decided exactly over any number of paths: every accepting path's conditions imply the three syndrome equations, no rejecting path contains a codeword (disequalities included) — a failing side is reported with a concrete witness word found by solving the path's linear system.",
        technique="constant folding + GF(2^8) algebra; finite-function evaluation; abstract interpretation over GF(2)-affine forms",
        note="trusted: CPython ast, sa/algebra.py GF(256) arithmetic, bytes/int operation models",
        ref="DESIGN.md §3 C11"),
    "C12": dict(
        text="Static, shape-seeded: the captured packets in the repository's own tests (hex constants read as data) plus sibling shapes (the captured object re-encoded under every other opcode its service accepts) give object shapes by constant evaluation; "
             "for each shape every scalar/byte field is replaced by symbols and the real as_bytes -> from_bytes -> as_bytes chain is analysed abstractly: every transmitted field bit decoded back, identical re-encoding, HDAP frame rules "
             "(service|reliable byte, length field in the protocol's endianness, checksum fed with exactly opcode..payload, 0x03, len()), HRNP length field, checksum coverage and checksum field = the value computed over that input (the sum is an uninterpreted function wherever it lives: in verify_checksum or in a helper), carry handling of the HRNP sum by interval analysis, HSTRP option TLV chain; the verdict of HRNP.verify_checksum by constant evaluation on crafted boundary frames; every (class, opcode) pair of the pinned implemented-opcode table is still written and read back (the five RRS messages are built through the constructor); range assertions on radio-id / request-id fields explored over the whole wire width; text-format rules for the GPS block (reader slices, table-driven or literal, against f-string / format() writers; Literal flags never tested for truthiness); optional-field dereference. Two known findings. Messages no capture carries are built through the constructors and analysed like captured shapes: the five RRS messages, RCP SendTalkerAliasRequest (every alias format) and RadioIDAndRadioIPQueryReply, HSTRP connect/close packets with option lists (a zero-length option last in the datagram, every documented option type, one option twice); the number of captured packets followed through reader and writer is pinned.",
        technique="abstract interpretation over GF(2)-affine bit forms on shapes obtained by constant evaluation of captured packets; interval analysis of the checksum accumulator; syntax-tree format-width rule",
        note="trusted: shapes are those of the captures (+siblings, + constructor-built RRS messages) listed in the evidence; the implemented-opcode table is the reference confirmed on today's tree; checksums are uninterpreted functions of exactly the bytes fed to them (coverage checked, arithmetic not); GPS text block boxed",
        ref="DESIGN.md §3 C12"),
    "C13": dict(
        text="Static: a symbolic well-formed 72-octet frame (576 atoms under affine well-formedness constraints) is decoded by the real from_ipsc_bytes and by from_kaitai on the object produced by the generated Kaitai parser's own _read "
             "(parser source read as data, stream = cursor over the same atoms); all attributes must be equal bit forms, ids/colour/sequence the bits the frame encodes, as_ipsc_bytes of either object must reproduce all 576 forms, "
             "ids must be unsigned 24-bit values, and Burst.from_hytera_ipsc must build the same burst from either input on each of the slot-type paths. The frame Burst.from_hytera_ipsc leaves attached to the burst must still serialise to the received 72 octets.",
        technique="abstract interpretation over GF(2)-affine bit forms of three sibling implementations on one symbolic input (cross-checking siblings); affine path constraints for well-formedness",
        note="trusted: model of the five KaitaiStream read primitives; Burst constructors stubbed in the from_hytera_ipsc rule (C01); well-formedness = fixed header, replicated colour nibble, zero pad octets, byte-palindromic codes (checked)",
        ref="DESIGN.md §3 C13"),
    "C14": dict(
        text="Static, integer clauses and info-time packing: the real write_uintvar / read_uintvar / write_sintvar / read_sintvar are interpreted abstractly on a 32-bit (31-bit magnitude, both signs) SYMBOLIC integer. The writer's bin() digit string makes the analysis fork on the position "
             "of the leading one (one path per bit length, 32 + 62 paths), every bit below it stays a symbol, so each path decides all values of that length at once: shortest octet count, continuation bits 1..1 0, sign bit, and the reader applied to "
             "prefix | written | trailer (prefix and trailer symbolic) returns exactly the value bits, the sign and the index just past the written octets; out-of-range values hit the writer's assertions. "
             "Info-time: the real write_infotime is interpreted on a stand-in datetime object with symbolic calendar fields and each field must appear, with all the bits it needs and msb first, exactly in the slice of the 40 bits from which the XML view's f-string reads it. "
             "The float writers and the latitude / longitude clauses (and info-time given as text) are NOT decided and not claimed.",
        technique="abstract interpretation over GF(2)-affine bit forms with path splitting on the leading-one position (bit-length classes); string-of-digits model for bin()/slices/int(s, 2)",
        note="partial claim: decides the uintvar / sintvar clauses for all 2^32 / 2^32-1 values and the info-time bit packing for all calendar values; float (value % 1 * 128**p) and latitude / longitude clauses involve binary floating point and are outside the decided part (DESIGN.md §3 C14)",
        ref="DESIGN.md §3 C14"),
    "C15": dict(
        text="Static: (1) the LRRP token tables against the type dispatch of read_document and write_part (handled by both or rejected by both — a one-sided type must be rejected by the writer or round-trip; single-octet ids, attribute ids defined); (2) every LRRP document id is parsed with the element-token table of its kind (constant evaluation of get_configuration per id) and that configuration is what the parser and the serialiser actually use (document-implementation); "
             "(3) abstract interpretation of the real as_bytes -> from_bytes -> as_bytes chain on document shapes — the captured documents of the tests, their siblings with an inline constant table of 0, 1 and 3 octets, 2-3 documents per buffer, and documents assembled through get_token "
             "for every implemented token x attribute choice and for the same attribute-bearing token twice, with every content octet (opaque ids, coordinates, info-time, uint8, constant table; up to 200-octet values and 340-octet bodies) symbolic: token ids, values, attributes and bytes are restored for all content values at once, "
             "and the reader never branches on content; variable-length numbers are constant-evaluated at boundary values (127/128/16384, 63.5/64.5, negative fractions) only; (4) one process history per order (parse request, parse report, look every token up twice): get_token keeps returning the table entry and the class-level tables are unchanged. Inline constant tables include the one that equals the default table of the document kind.",
        technique="table / dispatch agreement over the syntax tree; abstract interpretation (GF(2)-affine bit forms) of writer -> reader -> writer on constant-evaluated and API-assembled shapes; per-path class-state comparison",
        note="trusted: token SEQUENCES are those of the captures and the API-assembled documents (not all sequences of 0..12 tokens); numeric token values at the listed boundary constants (all 2^32 values are C14, not claimed); a token's required attribute is always supplied",
        ref="DESIGN.md §3 C15"),
    "C16": dict(
        text="Static, shape-seeded (captures of the TMS/ARS tests): per shape all scalar/byte fields symbolic — the 7-bit TMS sequence number and ARS refresh time as bit atoms so that the one/two-octet optional header and reserved-folding enums are decided exactly for all 128 values — "
             "small enumerations that the owner class only serialises varied over their defined members, the TMS more-headers flag (derived by the serialiser) symbolic — and the real writer/reader chain analysed abstractly: fields restored, identical re-encoding, leading length == octets that follow, len() agrees; per-octet symbolic wire probe (decode-then-encode); non-ASCII identifier variants for the ARS len-value fields; every boolean constructor flag must survive build -> serialise -> parse for both values; boundary-length variants of the captured shapes (address 127/128/255, message 254/256/400 octets). Every defined member of a transmitted enumeration field must come back as that member (captured shape and one-flag-inverted variants, constant evaluation); the number of captured packets followed is pinned.",
        technique="abstract interpretation over GF(2)-affine / finite-function domains on shapes obtained by constant evaluation of captured packets",
        note="trusted: shapes = captures in okdmr/tests/dmrlib/motorola (+ non-ASCII variants); text content opaque; the reserved header bit that the writer normalises is kept at its captured value",
        ref="DESIGN.md §3 C16"),
    "C17": dict(
        text="Static: every path of the real HSTRP and RRS datagram_received (18 + 65 paths) is enumerated by abstract interpretation with the decoder replaced by 'raises (one path per exception family: AssertionError, ValueError, KeyError, IndexError) | None | HSTRP with symbolic type bits, S/N, payload kind' "
             "and the transport as an effect-recording stub; hstrp_send_ack/heartbeat/rrs_confirm/deepcopy/as_bytes are interpreted for real, so each answer's bytes are bit forms over the request's atoms. Rules over (fixed type bits, effects, final state): "
             "never raises, acks never answered, exactly one ack with the request's S/N and no payload, heartbeat echo only while connected, connected flag (in the HSTRP layer and in the RRS layer, whatever the payload), registry updates, one bounded-S/N confirm per registration. Interval rule: every method that assigns the handler's own sequence number maps the invariant [0,0xFFFF] at its entry to the same invariant at each exit (interprocedural interval flow with refinement; no 2-octet overflow after any history length). Handler attributes other than the modelled ones that some method assigns and reads are arbitrary (symbolic) at the entry of the analysed step. Where a handler logs repr() of a received packet, every reachable __repr__ / __str__ must be total (no strict decoding of received octets).",
        technique="path enumeration by abstract interpretation with symbolic booleans (trace partitioning), effect sequences per path; interval analysis of the sequence counter",
        note="trusted: the decoder abstraction (any datagram either is rejected or yields an HSTRP object); 'never raises' is decided for the handler paths under that abstraction, not for the byte-level decoder",
        ref="DESIGN.md §3 C17"),
    "C18": dict(
        text="Static: the real P2P handler + RepeaterStorage + Repeater are analysed for each request kind x authorisation state of the sender with a symbolic datagram body (effects = sendto calls): reject exactly once to the requester when "
             "unregistered, serve only to stored/own addresses when registered, registration marks exactly the sender; RDAC: for every step value and datagram shape the effects, the sender's and another peer's step entries and the completion callback are inspected; "
             "repository-wide single-writer scan for the registered attribute. P2P datagram lengths analysed: 32 and every length around a constant the handlers compare len(data) with (derived from the source). RDAC: the response a step advances on and the step it leads to are pinned by value; P2P: commands cut off before their type octet are analysed as well.",
        technique="abstract interpretation of handlers on scenario x state products with effect recording; syntax-tree ownership scan",
        note="trusted: read_snmp_values replaced by a no-op; datagram bodies of fixed analysed length; histories are covered as (any stored state) x (any next datagram), i.e. inductively per step",
        ref="DESIGN.md §3 C18"),
    "C19": dict(
        text="Static whole-library alias / mutation-effect analysis (sa/effects.py, 620+ functions, fixpoint over the resolved call graph, calling contexts for constant flag arguments): every in-place operation is attributed to the origins of its object — "
             "a parameter, or a process-lifetime object (class-/module-level mutable value, mutable default value, lru_cache result). Rules: no function mutates a process-lifetime object (inventory of ~70 objects and 18 mutable defaults; the CRC singletons are discharged by a "
             "re-initialised-before-use proof over init/update/digest field sets, MBXML.DEBUG by a diagnostic-only-reads rule, memo stores only when the key determines the value — every input in the backward slice of the stored value is a variable the key preserves); no memoised function hands its mutable result to the caller of an entry point; no class-/module-level one-shot iterator (also when it is the result of a library function that returns one); no codec function mutates a buffer parameter that can come from outside, directly, through an alias or by passing it on "
             "(6 documented in-place helpers listed with reasons, call sites still checked); read-path methods apply no toggling in-place operation to self and keep no memo on the object; no codec function or import-time default expression reaches a clock / random source or the salted builtin hash(). "
             "A probe module with one seeded violation per rule is analysed on every run (positive controls) together with pure twins. next() advances an iterator in place; stateful handles (itertools, incremental codecs, ...) are neither class-level constants nor memo values; no codec function returns a view of a class-level buffer; the CRC register's init must not alias a configuration object; __repr__ / __str__ / __len__ / __eq__ / __hash__ store nothing on the object or on what it holds.",
        technique="flow-sensitive intraprocedural alias analysis with interprocedural mutation / return-alias summaries, field-sensitive shared-origin store, call-graph reachability; must-pass-through + field-set rule for the CRC register",
        note="decides the absence of every mechanism by which call history could matter (shared mutable state, argument aliasing, clock), not result equality over histories as such; unresolved receivers are over-approximated by method name (reported only when they reach shared state); "
             "external library calls assumed non-mutating except a listed set; threads out of scope",
        ref="DESIGN.md §3 C19"),
    "C20": dict(
        text="Static: ownership rules over the syntax tree (registry writers, read-only lookups, single writer of Repeater.id) plus abstract interpretation of the real storage methods on scenario sequences with symbolic patch values "
             "(identity of repeated lookups, growth only on auto-create of unseen addresses — another port of a known ip is unseen —, key == record.id coherence, patch touches exactly the named fields of exactly the matched record, also when handed to the creating call or applied twice to one dynamic attribute; falsy values False / 0 / '' are set like any other; a patch handed to a look-up of an unseen address without auto-create creates nothing and returns None). Includes re-addressing a record through its own patch() followed by look-ups (no stale look-up memo). Boundary ports (0, 1, 0x7FFF, 0x8000, 0xFFFE, 0xFFFF) of one ip are pairwise different addresses (constant evaluation).",
        technique="syntax-tree ownership / who-may-write rules; abstract interpretation of scenario sequences",
        note="trusted: uuid4 results distinct, name-based uuid5 / uuid3 results a function of their arguments; sequences beyond the analysed scenarios are covered by the ownership rules only",
        ref="DESIGN.md §3 C20"),
}

NA_REASON = {
}

checks = []
na = []
for p in props:
    pid = p["id"]
    if pid in CHECKS and (V / "rules" / f"{pid.lower()}.py").exists():
        c = CHECKS[pid]
        checks.append({
            "property_id": pid,
            "quick_cmd": f"/venv/bin/python /verif/check.py {pid} --tier quick",
            "thorough_cmd": f"/venv/bin/python /verif/check.py {pid} --tier thorough",
            "evidence_file": f"/verif/evidence/{pid}.json",
            "replay_cmd_template": f"/venv/bin/python /verif/check.py {pid} --replay {{path}}",
            "engine": "okdmr-static",
            "level_claimed": {"category": "other", "text": c["text"], "design_ref": c["ref"]},
            "level_note": c["note"],
            "technique": c["technique"],
        })
    else:
        na.append({"property_id": pid, "reason": NA_REASON.get(pid, "check not built yet (implementation in progress; see DESIGN.md)")})

manifest = {
    "version": 1,
    "setup_cmd": "/venv/bin/python /verif/check.py --self-check",
    "hooks": {
        "guard": "OKDMR_VERIF_HOOKS",
        "enable": "none needed: the checkers parse /repo's working tree with ast; the repository carries no hooks",
        "baseline_off_cmd": "cd /repo && /venv/bin/python -m pytest -ra -q -p no:cacheprovider --timeout=900 --continue-on-collection-errors",
        "source_commits": [],
        "add_only": True,
    },
    "engines": [{
        "name": "okdmr-static", "path": "/verif/check.py",
        "serves_properties": [c["property_id"] for c in checks],
        "kind_free_text": "repository-specific static analysis on CPython ast: model + constant folder, table algebra, abstract interpretation over GF(2)-affine / finite-function bit domains, path enumeration with opaque guards, purity/alias dataflow",
    }],
    "checks": checks,
    "notes": "Static analysis only (stdlib ast, nothing installed, no repo code imported or executed). See DESIGN.md. known_findings.json lists fixed and known defects.",
    "not_applicable": na,
}
(V / "MANIFEST.json").write_text(json.dumps(manifest, indent=1))
print(f"{len(checks)} checks, {len(na)} not applicable")
