#!/bin/bash
# usage: confirm_seed.sh <seed dir> <work path>
# confirms a seeded change on a scratch copy of /repo's working tree placed at <work path> (some demos assert that path):
#   demo.py exits 0 on the clean copy; the patch applies; the pinned test suite passes with it; demo.py exits 1 with it.  Prints one JSON line.
S="$1"; W="$2"; id=$(basename $(dirname $S))/$(basename $S)
rm -rf "$W"; mkdir -p "$W"; (cd /repo && cp -r okdmr pyproject.toml setup.py "$W"/)
(cd "$W" && PYTHONPATH="$W" timeout 900 /venv/bin/python $S/demo.py >/dev/null 2>&1); demo_without=$?
applies=true
(cd "$W" && git init -q . && git apply --whitespace=nowarn $S/patch.diff) 2>/dev/null || applies=false
tests="skipped"; demo_with="skipped"
if $applies; then
  tests=$(cd "$W" && /venv/bin/python -m pytest -q -p no:cacheprovider --timeout=900 -x 2>&1 | tail -1 | tr -d '\n' | sed 's/"/ /g')
  (cd "$W" && PYTHONPATH="$W" timeout 900 /venv/bin/python $S/demo.py >/dev/null 2>&1); demo_with=$?
fi
rm -rf "$W"
echo "{\"id\": \"$id\", \"applies\": $applies, \"tests\": \"$tests\", \"demo_exit_with_change\": \"$demo_with\", \"demo_exit_without\": \"$demo_without\"}"
