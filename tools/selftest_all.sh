#!/bin/bash
# maintainer's gate: the thorough tier of every check (self-tests included); fails if any SELFTEST outcome is not caught / silent / stale
cd /verif; bad=0
for id in $(python3 -c "import json;print(' '.join(c['property_id'] for c in json.load(open('MANIFEST.json'))['checks']))"); do
  out=$(/venv/bin/python check.py $id --tier thorough --no-evidence 2>&1); rc=$?
  n=$(echo "$out" | grep -c "^SELFTEST"); b=$(echo "$out" | grep "^SELFTEST" | grep -vc ": caught \|: silent\|: stale ")
  echo "$id rc=$rc selftests=$n unexpected=$b"; [ "$rc" != "0" ] && bad=1; [ "$b" != "0" ] && { echo "$out" | grep "^SELFTEST" | grep -v ": caught \|: silent\|: stale "; bad=1; }
done
exit $bad
