#!/bin/bash
# usage: try_seeds.sh <seed-root> <Cxx> [check ids...]  — run the property's check (or the given checks) against each seed patch of that property
R="$1"; P="$2"; shift 2
CH="${@:-$P}"
for d in $R/$P/_out/$P-*; do
  [ -f $d/patch.diff ] || continue
  for c in $CH; do
    out=$(timeout 1500 /verif/tools/try_patch.sh $d/patch.diff $c 2>&1)
    nv=$(echo "$out" | grep -c "^VIOLATION")
    ae=$(echo "$out" | grep -c "^ANALYSIS-ERROR")
    first=$(echo "$out" | grep "^FINDING" | head -1 | cut -c1-260)
    [ "$ae" != "0" ] && first="$first $(echo "$out" | grep "^ANALYSIS-ERROR" | head -1 | cut -c1-200)"
    echo "$(basename $d) by $c: violations=$nv analysis_errors=$ae | $first"
  done
done
