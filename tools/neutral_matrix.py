#!/usr/bin/env python3
"""usage: neutral_matrix.py <dir with */patch.diff> [jobs] — run, for every behaviour-preserving patch, the check of its own property,
C19 (whole library) and every check whose anchored files the patch touches; prints one line per (patch, check): silent / ALARM / ERROR"""
import json, pathlib, re, subprocess, sys
from concurrent.futures import ThreadPoolExecutor
V = pathlib.Path("/verif")
props = [json.loads(l) for l in (V / "properties.jsonl").read_text().splitlines() if l.strip()]
anch = {p["id"]: set(p["anchors"]["files"]) for p in props}
root = pathlib.Path(sys.argv[1]); jobs = int(sys.argv[2]) if len(sys.argv) > 2 else 4
tasks = []
for d in sorted(root.glob("*/patch.diff")):
    name = d.parent.name
    own = name[:3]
    files = set(re.findall(r"^\+\+\+ b/(\S+)", d.read_text(), re.M))
    checks = {own, "C19"} | {pid for pid, fs in anch.items() if fs & files}
    for c in sorted(checks):
        tasks.append((name, str(d), c))
def run(t):
    name, patch, c = t
    r = subprocess.run(["/verif/tools/try_patch.sh", patch, c], capture_output=True, text=True, timeout=3000)
    out = r.stdout + r.stderr
    nv = len(re.findall(r"^VIOLATION", out, re.M)); ae = len(re.findall(r"^ANALYSIS-ERROR", out, re.M))
    first = next((l for l in out.splitlines() if l.startswith(("FINDING", "ANALYSIS-ERROR", "error:"))), "")
    status = "ALARM" if nv else ("ERROR" if ae or "error:" in out else "silent")
    return f"{name} {c} {status} {first[:220]}"
with ThreadPoolExecutor(jobs) as ex:
    for line in ex.map(run, tasks):
        print(line, flush=True)
