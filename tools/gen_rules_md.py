#!/usr/bin/env python3
"""Generate /verif/RULES.md from the evidence files: every rule of every check with its text and instance count."""
import json
import pathlib

V = pathlib.Path(__file__).resolve().parent.parent
props = {json.loads(l)["id"]: json.loads(l) for l in (V / "properties.jsonl").read_text().splitlines() if l.strip()}
out = ["# Rules per property (generated from `evidence/*.json` by `tools/gen_rules_md.py`)", "",
       "One *instance* = one obligation: a rule applied to one construct of `/repo`'s current source.", ""]
for pid in sorted(props):
    p = V / "evidence" / f"{pid}.json"
    if not p.exists():
        continue
    ev = json.loads(p.read_text())
    cov = ev.get("coverage", {})
    out.append(f"## {pid} — {props[pid]['title']}")
    out.append("")
    out.append(f"{cov.get('obligations', '?')} obligations, {cov.get('discharged', '?')} hold; tier `{ev.get('tier')}`; {ev.get('wall_s', '?')} s.")
    out.append("")
    out.append("| rule | instances | what it says |")
    out.append("|---|---|---|")
    ipr = cov.get("instances_per_rule", {})
    for r, text in cov.get("rules", {}).items():
        out.append(f"| `{r}` | {ipr.get(r, 0)} | {text.replace('|', '/')} |")
    out.append("")
    if ev.get("assumptions"):
        out.append("Assumptions: " + "; ".join(ev["assumptions"]))
        out.append("")
(V / "RULES.md").write_text("\n".join(out) + "\n")
print("RULES.md written")
