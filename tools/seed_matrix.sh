#!/bin/bash
# usage: seed_matrix.sh <dir with <id>-k/patch.diff ...> — each seed against its own property's check; prints one line per seed
R="$1"
for d in $(ls -d $R/C*-* | sort); do
  id=$(basename $d); P=${id%-*}
  [ -f $d/patch.diff ] || continue
  if ! git -C /repo apply --check $d/patch.diff 2>/dev/null; then echo "$id NOAPPLY"; continue; fi
  out=$(timeout 2400 /verif/tools/try_patch.sh $d/patch.diff $P 2>&1)
  nv=$(echo "$out" | grep -c "^VIOLATION"); ae=$(echo "$out" | grep -c "^ANALYSIS-ERROR")
  echo "$id own=$P violations=$nv analysis_errors=$ae | $(echo "$out" | grep '^FINDING' | head -1 | cut -c9-160)"
done
