#!/usr/bin/env python3
"""usage: seed_full_matrix.py [jobs] [--update] [--only=<substring of seed name>] — run, for every confirmed seeded change under /verif/seeded, the check of its own
property, C19 (whole library), every check whose anchored files the patch touches and every check its meta.json already names;
prints one line per (seed, check): CAUGHT / silent / ERROR.  With --update, rewrites meta.json `checks_run` / `caught_by` /
`own_check_catches` from the outcome (scratch copies only; /repo is never touched)."""
import json, pathlib, re, subprocess, sys
from concurrent.futures import ThreadPoolExecutor
V = pathlib.Path("/verif")
props = [json.loads(l) for l in (V / "properties.jsonl").read_text().splitlines() if l.strip()]
anch = {p["id"]: set(p["anchors"]["files"]) for p in props}
args = [a for a in sys.argv[1:] if not a.startswith("--")]
jobs = int(args[0]) if args else 4
update = "--update" in sys.argv
only = next((a.split("=", 1)[1] for a in sys.argv if a.startswith("--only=")), "")
tasks = []
metas = {}
for d in sorted((V / "seeded").glob("*/patch.diff")):
    name = d.parent.name
    if only and only not in name:
        continue
    meta = json.loads((d.parent / "meta.json").read_text())
    metas[name] = meta
    own = meta["property"]
    files = set(re.findall(r"^\+\+\+ b/(\S+)", d.read_text(), re.M))
    checks = {own, "C19"} | {pid for pid, fs in anch.items() if fs & files} | set(meta.get("caught_by", []))
    for c in sorted(checks):
        tasks.append((name, str(d), c))


def run(t):
    name, patch, c = t
    try:
        r = subprocess.run(["/verif/tools/try_patch.sh", patch, c], capture_output=True, text=True, timeout=3000)
        out = r.stdout + r.stderr
    except subprocess.TimeoutExpired:
        out = "ANALYSIS-ERROR timeout"
    nv = len(re.findall(r"^VIOLATION", out, re.M)); ae = len(re.findall(r"^ANALYSIS-ERROR", out, re.M))
    first = next((l for l in out.splitlines() if l.startswith(("FINDING", "ANALYSIS-ERROR", "error:"))), "")
    status = "CAUGHT" if nv else ("ERROR" if ae or "error:" in out else "silent")
    return name, c, status, first[:200]


res = {}
with ThreadPoolExecutor(jobs) as ex:
    for name, c, status, first in ex.map(run, tasks):
        print(f"{name} {c} {status} {first}", flush=True)
        res.setdefault(name, {})[c] = (status, first)
# second pass: a change nobody reported yet is shown to the checks that own the usual neighbouring mechanisms (PDU layout, check
# fields, component codes, frames, purity) as well — a seed filed under one property often lives in the code of another
SIBLINGS = ["C01", "C03", "C04", "C06", "C10", "C12", "C19"]
tasks2 = []
for name, r in res.items():
    if not any(s_ == "CAUGHT" for s_, _ in r.values()):
        tasks2 += [(name, str(V / "seeded" / name / "patch.diff"), c) for c in SIBLINGS if c not in r]
if tasks2:
    with ThreadPoolExecutor(jobs) as ex:
        for name, c, status, first in ex.map(run, tasks2):
            print(f"{name} {c} {status} {first}  [second pass]", flush=True)
            res.setdefault(name, {})[c] = (status, first)
if update:
    for name, r in res.items():
        meta = metas[name]
        meta["checks_run"] = {
            "how": "tools/seed_full_matrix.py -> tools/try_patch.sh <patch> <Cxx>: the registered check (same code, --repo <scratch copy of /repo's "
                   "working tree with the patch>) for the own property, C19, every check anchored in a touched file and every check named before",
            "results": {c: {"outcome": s, "first_report": f[8:] if f.startswith("FINDING ") else f} for c, (s, f) in sorted(r.items())}}
        meta["caught_by"] = sorted(c for c, (s, _) in r.items() if s == "CAUGHT")
        meta["own_check_catches"] = r.get(meta["property"], ("", ""))[0] == "CAUGHT"
        (V / "seeded" / name / "meta.json").write_text(json.dumps(meta, indent=1) + "\n")
miss = [n for n, r in res.items() if not any(s == "CAUGHT" for s, _ in r.values())]
print(f"SUMMARY seeds={len(res)} caught_by_some_check={len(res) - len(miss)} own={sum(1 for n, r in res.items() if r.get(metas[n]['property'], ('',))[0] == 'CAUGHT')} missed={miss}")
