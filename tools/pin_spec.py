"""One-off helper (NOT run by any check): writes /verif/spec/*.json from the tree given as argv[1]
after the algebraic rules passed on it.  Pinned values are then the reference 'through time'."""
import json, sys, pathlib
sys.path.insert(0, str(pathlib.Path(__file__).resolve().parent.parent))
from sa.model import Repo, NPArr
from rules.c06 import code_classes
repo = Repo(sys.argv[1] if len(sys.argv) > 1 else "/repo")
out = {}
for ci in code_classes(repo):
    out[ci.name] = {"G": repo.class_const(ci, "GENERATOR_MATRIX").tolist(), "source": ci.qualname}
p = pathlib.Path(__file__).resolve().parent.parent / "spec" / "fec_matrices.json"
p.write_text(json.dumps(out, indent=None, separators=(",", ":")).replace('},"', '},\n"'))
print("pinned", list(out))
