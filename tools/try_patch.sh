#!/bin/bash
# usage: try_patch.sh <patch.diff|REV:<git-rev>> <Cxx> [more Cxx...]   — run checks against a scratch copy of /repo with the patch applied
set -e
P="$1"; shift
D=$(mktemp -d /tmp/okdmr-try-XXXXXX)
trap 'rm -rf "$D"' EXIT
if [[ "$P" == REV:* ]]; then
  git -C /repo archive "${P#REV:}" okdmr | tar -x -C "$D"
else
  mkdir -p "$D/okdmr"; cp -r /repo/okdmr/dmrlib "$D/okdmr/dmrlib"; cp -r /repo/okdmr/tests "$D/okdmr/tests"
  (cd "$D" && git init -q . 2>/dev/null && git apply --whitespace=nowarn "$P")
fi
rc_all=0
for pid in "$@"; do
  /venv/bin/python /verif/check.py "$pid" --repo "$D" --no-evidence --quiet | sed "s#$D/##g" | grep -v "^  rule\|^  info" | cut -c1-400 || true
done
