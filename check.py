#!/venv/bin/python
"""Entry point: /venv/bin/python /verif/check.py <Cxx> [--tier quick|thorough] [--only KEY] [--repo DIR]

exit 0 = every rule instance holds (or only listed known findings fail)
exit 1 = VIOLATION line(s) printed
exit 2 = ANALYSIS-ERROR (the analysis, not the code, failed) — never a silent pass
"""
import argparse
import importlib
import os
import sys
import traceback

sys.path.insert(0, os.path.dirname(os.path.abspath(__file__)))
sys.dont_write_bytecode = True

from sa.model import AnalysisError, Repo  # noqa: E402
from sa.report import Ctx, finish  # noqa: E402
from sa.wiring import Misbehaves  # noqa: E402


def run_check(pid: str, tier: str, seed: int, root: str = None, only: str = None, quiet: bool = False,
              write_evidence: bool = True, selftest: bool = True) -> int:
    try:
        repo = Repo(root)
        ctx = Ctx(pid, tier, seed, repo, only=only, quiet=quiet)
        mod = importlib.import_module(f"rules.{pid.lower()}")
        try:
            mod.run(ctx)
        except Misbehaves as e:
            # the analysed composition provably raises for some inputs of the analysed domain (an exact finite-function result,
            # not an analysis limit) at a place where the rule had no handler of its own: a finding, not a crash of the checker
            what, _, detail = str(e).partition(": ")
            ctx.rule("code/no-raise", "the analysed encode / decode / check composition raises for no input of the analysed domain")
            ctx.ob("code/no-raise", what, False, detail or str(e))
        if tier == "thorough" and selftest and not only:
            from selftest import corpus
            corpus.run_selftests(ctx)
        return finish(ctx, write_evidence=write_evidence)
    except AnalysisError as e:
        print(f"ANALYSIS-ERROR property={pid} {e}")
        return 2
    except Exception as e:  # fail closed, but not as a violation of the property
        traceback.print_exc()
        print(f"ANALYSIS-ERROR property={pid} uncaught {type(e).__name__}: {e}")
        return 2


def main():
    ap = argparse.ArgumentParser()
    ap.add_argument("pid", nargs="?")
    ap.add_argument("--self-check", action="store_true")
    ap.add_argument("--replay", default=None)
    ap.add_argument("--tier", default=os.environ.get("VERIF_TIER", "quick"), choices=["quick", "thorough"])
    ap.add_argument("--only", default=None)
    ap.add_argument("--repo", default=None)
    ap.add_argument("--no-evidence", action="store_true")
    ap.add_argument("--no-selftest", action="store_true")
    ap.add_argument("--quiet", action="store_true")
    a = ap.parse_args()
    if a.self_check:
        repo = Repo(a.repo)
        import glob
        for f in sorted(glob.glob(os.path.join(os.path.dirname(os.path.abspath(__file__)), "rules", "c*.py"))):
            importlib.import_module("rules." + os.path.basename(f)[:-3])
        print(f"self-check ok: {len(repo.modules)} modules parsed, rules importable")
        sys.exit(0)
    if not a.pid:
        ap.error("property id required")
    if a.replay:
        import json
        a.only = json.load(open(a.replay))["key"]
        a.no_evidence = True
    try:
        seed = int(os.environ.get("VERIF_SEED", "0"))
    except ValueError:
        seed = 0
    # wall-clock budget: an analysis that does not come back (a variant of the code that makes a fixpoint or a path enumeration
    # explode) is an analysis error, never a hang and never a pass
    import signal
    budget = int(os.environ.get("VERIF_MAX_SECONDS", "1500" if a.tier == "quick" else "14400"))

    def _over(signum, frame):
        print(f"ANALYSIS-ERROR property={a.pid.upper()} budget: no result within {budget} s of wall-clock time")
        sys.stdout.flush()
        try:
            import multiprocessing
            for ch in multiprocessing.active_children():
                ch.terminate()
        finally:
            os._exit(2)

    if budget > 0 and hasattr(signal, "SIGALRM"):
        signal.signal(signal.SIGALRM, _over)
        signal.alarm(budget)
    rc = run_check(a.pid.upper(), a.tier, seed, a.repo, a.only, a.quiet, not a.no_evidence, not a.no_selftest)
    if hasattr(signal, "SIGALRM"):
        signal.alarm(0)
    sys.stdout.flush()
    sys.exit(rc)


if __name__ == "__main__":
    main()
