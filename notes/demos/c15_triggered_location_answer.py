"""C15 defect (fixed by /repo 355de7a): a Triggered-Location-Answer document with a result element did not parse.
Run against the pre-fix tree:  git -C /repo stash is NOT used; use a scratch export of 74d721d:
  d=$(mktemp -d); git -C /repo archive 74d721d okdmr | tar -x -C $d; PYTHONPATH=$d /venv/bin/python this_file.py   -> KeyError 56
and against the fixed tree (PYTHONPATH=/repo) -> prints the re-serialised bytes 0b0722042468ace038."""
from okdmr.dmrlib.motorola.mbxml import MBXML

raw = bytes.fromhex("0B0722042468ACE038")   # doc id 0x0B, 7 octets: request-id (4 octets) + result 0x38
docs = MBXML.from_bytes(raw)
out = MBXML.as_bytes(docs[0]) if hasattr(MBXML, "as_bytes") else None
print(out.hex() if out else docs)
assert out is None or out == raw
