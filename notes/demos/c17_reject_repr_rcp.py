"""C17: REJECT carrying an RCP SendTalkerAliasRequest whose alias is not valid UTF-8"""
import sys, traceback
from okdmr.dmrlib.hytera.pdu.hstrp import HSTRP, HSTRPPacketType
from okdmr.dmrlib.hytera.pdu.radio_control_protocol import RadioControlProtocol, RCPOpcode, RCPCallType
from okdmr.dmrlib.etsi.layer3.elements.talker_alias_data_format import TalkerAliasDataFormat
from okdmr.dmrlib.protocols.hytera.rrs_datagram_protocol import RRSDatagramProtocol
class T:
    def __init__(self): self.sent = []
    def sendto(self, data, addr=None): self.sent.append((data, addr))
rcp = RadioControlProtocol(opcode=RCPOpcode.SendTalkerAliasRequest, call_type=RCPCallType.PrivateCall, sender_id=2305, target_id=2306,
                           talker_alias_format=TalkerAliasDataFormat.UnicodeUTF8, talker_alias_data=b"\xff\xfe\xfd")
wire = HSTRP(pkt_type=HSTRPPacketType(is_reject=True), sn=7, payload=rcp).as_bytes()
assert isinstance(HSTRP.from_bytes(wire).payload, RadioControlProtocol)
p = RRSDatagramProtocol(port=50000); p.transport = T()
try:
    p.datagram_received(wire, ("10.0.0.1", 50000))
except Exception as e:
    traceback.print_exc(); print("FAIL:", type(e).__name__); sys.exit(1)
print("ok")
