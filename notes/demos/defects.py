"""Concrete failing inputs for the genuine defects listed in DESIGN.md section 5.

NOT part of any check (the checks are static).  Run once against the real code before and after
each `fix:` commit:  PYTHONPATH=<tree> /venv/bin/python /verif/notes/demos/defects.py [name ...]
Each demo prints DEFECT (property violated for the shown input) or OK.
"""
import sys, traceback, random
from bitarray import bitarray
from bitarray.util import int2ba, ba2int


def d01_csbk_nack_aif():
    from okdmr.dmrlib.etsi.layer2.pdu.csbk import CSBK
    from okdmr.dmrlib.etsi.layer2.elements.csbk_opcodes import CsbkOpcodes
    bits = bitarray([0] * 96)
    bits[0] = 1
    bits[2:8] = int2ba(CsbkOpcodes.NegativeAcknowledgementResponse.value, length=6)
    bits[16] = 0  # additional information field = 0
    bits[17] = 1
    bits[18:24] = int2ba(CsbkOpcodes.UnitToUnitVoiceServiceRequest.value, length=6)
    bits[24:32] = int2ba(0x21, length=8)
    p = CSBK.from_bits(bits)
    out = p.as_bits()
    return out[16] != bits[16], f"bit16 in={bits[16]} out={out[16]}"


def d02_csbk_aloha_lb():
    from okdmr.dmrlib.etsi.layer2.pdu.csbk import CSBK
    from okdmr.dmrlib.etsi.layer2.elements.csbk_opcodes import CsbkOpcodes
    bits = bitarray([0] * 96)
    bits[0] = 0  # last block = 0
    bits[2:8] = int2ba(CsbkOpcodes.AlohaPDUsForRandomAccessProtocol.value, length=6)
    bits[24:28] = int2ba(1, length=4)
    p = CSBK.from_bits(bits)
    return bool(p.last_block) != False, f"LB in=0 parsed={p.last_block}"


def d03_dataheader_response_a():
    from okdmr.dmrlib.etsi.layer2.pdu.data_header import DataHeader
    from okdmr.dmrlib.etsi.layer2.elements.data_packet_formats import DataPacketFormats
    bits = bitarray([0] * 96)
    bits[1] = 1
    bits[4:8] = int2ba(DataPacketFormats.ResponsePacket.value, length=4)
    p = DataHeader.from_bits(bits)
    out = p.as_bits()
    return out[1] != 1, f"A bit in=1 parsed={p.is_response_requested} re-encoded={out[1]}"


def d04_shortlc_crc():
    from okdmr.dmrlib.etsi.layer2.pdu.short_link_control import ShortLinkControl
    from okdmr.dmrlib.etsi.layer2.elements.slcos import SLCOs
    from okdmr.dmrlib.etsi.layer3.elements.activity_id import ActivityID
    rnd = random.Random(1)
    bad = 0
    for _ in range(100):
        s = ShortLinkControl(
            slco=SLCOs.ActivityUpdate,
            ts1_activity_id=ActivityID(rnd.randrange(0, 4)),
            ts2_activity_id=ActivityID(rnd.randrange(0, 4)),
            ts1_address=int2ba(rnd.randrange(256), length=8),
            ts2_address=int2ba(rnd.randrange(256), length=8),
        )
        if not ShortLinkControl.from_bits(s.as_bits()).crc_ok:
            bad += 1
    return bad > 0, f"{bad}/100 self-generated short LCs parse back with crc_ok False"


def d06_confirmed_crc9():
    from okdmr.dmrlib.transmission.transmission_generator import TransmissionGenerator
    from okdmr.dmrlib.etsi.layer2.pdu.rate12_data import Rate12Data, Rate12DataTypes
    from okdmr.dmrlib.etsi.layer2.burst import Burst
    bursts, poc = TransmissionGenerator.generate_data_bursts(
        packet_type=Rate12Data, userdata=bytes(range(40)), is_confirmed=True
    )
    bad = 0
    for i, b in enumerate(bursts):
        rb = Burst.from_bytes(b.as_bytes())
        last = i == len(bursts) - 1
        typed = Rate12Data.from_bits_typed(
            rb.data.as_bits(),
            Rate12DataTypes.ConfirmedLastBlock if last else Rate12DataTypes.Confirmed,
        )
        if not typed.crc9_ok:
            bad += 1
    return bad > 0, f"{bad}/{len(bursts)} confirmed blocks reparse with crc9_ok False"


def d07_voice_header_then_data():
    from okdmr.dmrlib.transmission.transmission import Transmission
    from okdmr.dmrlib.transmission.transmission_observer_interface import TransmissionObserverInterface
    from okdmr.dmrlib.etsi.layer2.pdu.full_link_control import FullLinkControl
    from okdmr.dmrlib.etsi.layer2.pdu.rate12_data import Rate12Data
    events = []

    class Obs(TransmissionObserverInterface):
        def transmission_started(self, transmission_type):
            events.append(("started", transmission_type.name))

        def voice_transmission_ended(self, voice_header, blocks):
            events.append(("voice_ended", type(voice_header).__name__))

        def data_transmission_ended(self, transmission_header, blocks):
            events.append(("data_ended", type(transmission_header).__name__))

    t = Transmission(observer=Obs())
    flc = FullLinkControl.from_bits(bitarray([0] * 96))
    t.process_voice_header(flc)
    from okdmr.dmrlib.etsi.layer2.pdu.rate12_data import Rate12DataTypes
    t.process_data(Rate12Data(data=bytes(8), packet_type=Rate12DataTypes.UnconfirmedLastBlock))
    bad = any(e[0] == "data_ended" for e in events) and not any(
        e == ("started", "DataTransmission") for e in events
    )
    return bad, f"events={events}"


def d08_vbptc_cs5():
    from okdmr.dmrlib.etsi.fec.vbptc_128_72 import VBPTC12873
    from okdmr.dmrlib.etsi.fec.five_bit_checksum import FiveBitChecksum
    rnd = random.Random(2)
    bad = 0
    for _ in range(200):
        msg = bitarray([rnd.randrange(2) for _ in range(72)])
        enc = VBPTC12873.encode(msg)
        cs_read = VBPTC12873.deinterleave_cs5_bits(enc) if hasattr(VBPTC12873, "deinterleave_cs5_bits") else None
        want = FiveBitChecksum.calculate(msg.tobytes())
        got = ba2int(cs_read) if isinstance(cs_read, bitarray) else cs_read
        if got != want:
            bad += 1
    return bad > 0, f"{bad}/200 messages read back a different CS5"


def d09_lp_reliable():
    from okdmr.dmrlib.hytera.pdu.location_protocol import LocationProtocol, LocationProtocolSpecificService
    p = LocationProtocol(
        opcode=LocationProtocolSpecificService.StandardRequest,
        request_id=b"\x00\x00\x00\x01",
        radio_ip=b"\x0a\x00\x00\x01",
        is_reliable=True,
    )
    q = LocationProtocol.from_bytes(p.as_bytes())
    return q.is_reliable != True, f"is_reliable built=True parsed={q.is_reliable}"


IPSC_HEX = "5a5a5a5a02e0000001000501020000002222222211110000405c7b168990007cb99b434101430d847f5dfd777d756b9de0513022c7ca1f0194140000630201000900000022072800"


def d12_ipsc():
    from okdmr.dmrlib.hytera.hytera_ipsc import HyteraIPSC
    from okdmr.kaitai.hytera.ip_site_connect_protocol import IpSiteConnectProtocol
    raw = bytes.fromhex(IPSC_HEX)
    a = HyteraIPSC.from_ipsc_bytes(raw)
    k = HyteraIPSC.from_kaitai(IpSiteConnectProtocol.from_bytes(raw))
    msgs = []
    if a.source_radio_id != k.source_radio_id:
        msgs.append(f"src id raw-path={a.source_radio_id} kaitai-path={k.source_radio_id}")
    if a.color_code != k.color_code:
        msgs.append(f"colour raw-path={a.color_code} kaitai-path={k.color_code}")
    for name, o in (("raw", a), ("kaitai", k)):
        try:
            out = o.as_ipsc_bytes()
            if out != raw:
                msgs.append(f"{name}: as_ipsc_bytes differs (len {len(out)})")
        except Exception as e:
            msgs.append(f"{name}: as_ipsc_bytes raises {type(e).__name__}: {e}")
    return bool(msgs), "; ".join(msgs)


def d13_mbxml_two_docs():
    from okdmr.dmrlib.motorola.mbxml import MBXML
    one = bytes.fromhex("070C22042468ACE0390503515355")
    try:
        docs = MBXML.from_bytes(one + one)
        return len(docs) != 2, f"parsed {len(docs)} documents"
    except Exception as e:
        return True, f"two documents in one buffer raise {type(e).__name__}: {e}"


def d14_hstrp_pingpong():
    from okdmr.dmrlib.protocols.hytera.hstrp_datagram_protocol import HSTRPDatagramProtocol
    from okdmr.dmrlib.hytera.pdu.hstrp import HSTRP, HSTRPPacketType

    class T:
        def __init__(self):
            self.sent = []

        def sendto(self, data, addr=None):
            self.sent.append(data)

    a, b = HSTRPDatagramProtocol(12345), HSTRPDatagramProtocol(12345)
    a.transport, b.transport = T(), T()
    connect = HSTRP(pkt_type=HSTRPPacketType(is_connect=True), sn=1).as_bytes()
    rounds = 0
    msgs = [connect]
    side = [a, b]
    while msgs and rounds < 6:
        h = side[rounds % 2]
        h.transport.sent.clear()
        for m in msgs:
            h.datagram_received(m, ("127.0.0.1", 1))
        msgs = list(h.transport.sent)
        rounds += 1
    return rounds >= 6, f"exchange still going after {rounds} rounds"


def d15_get_token_twice():
    from okdmr.dmrlib.motorola.lrrp import LRRP
    from okdmr.dmrlib.motorola.mbxml import MBXMLDocumentIdentifier
    doc = LRRP(document_id=MBXMLDocumentIdentifier.LRRP_ImmediateLocationReport_NCDT)
    ids = []
    for _ in range(2):
        t = doc.get_token(name="result", value=b"SQU", attributes={"result-code": 5}, is_request=False)
        ids.append(t.token_id)
    return ids[0] != ids[1], f"token ids for two identical calls: {[hex(i) for i in ids]}"


DEMOS = {k: v for k, v in globals().items() if k.startswith("d") and k[1:3].isdigit()}

if __name__ == "__main__":
    names = sys.argv[1:] or sorted(DEMOS)
    for n in names:
        for k, f in sorted(DEMOS.items()):
            if k.startswith(n):
                try:
                    bad, msg = f()
                    print(("DEFECT " if bad else "OK     ") + k + ": " + msg)
                except Exception as e:
                    print("ERROR  " + k + ": " + "".join(traceback.format_exception_only(type(e), e)).strip())
