"""C17: a well-formed HSTRP REJECT message whose TMP payload carries text that is not valid UTF-16 makes
RRSDatagramProtocol.datagram_received raise (the 'did not handle' branch logs repr(pdu))"""
import sys, traceback
from okdmr.dmrlib.hytera.pdu.hstrp import HSTRP, HSTRPPacketType
from okdmr.dmrlib.hytera.pdu.text_message_protocol import TextMessageProtocol, TMPService
from okdmr.dmrlib.hytera.pdu.radio_ip import RadioIP
from okdmr.dmrlib.protocols.hytera.rrs_datagram_protocol import RRSDatagramProtocol

class T:
    def __init__(self): self.sent = []
    def sendto(self, data, addr=None): self.sent.append((data, addr))

tmp = TextMessageProtocol(opcode=TMPService.SendPrivateMessage, request_id=1, destination_ip=RadioIP(radio_id=2305, subnet=10), source_ip=RadioIP(radio_id=2306, subnet=10),
                          text_data=b"\x41\x00\x00\xd8")   # 'A' + a lone high surrogate
wire = HSTRP(pkt_type=HSTRPPacketType(is_reject=True), sn=7, payload=tmp).as_bytes()
assert isinstance(HSTRP.from_bytes(wire).payload, TextMessageProtocol)
p = RRSDatagramProtocol(port=50000)
p.transport = T()
try:
    p.datagram_received(wire, ("10.0.0.1", 50000))
except Exception as e:
    traceback.print_exc()
    print("FAIL: handling a well-formed HSTRP data message raised", type(e).__name__)
    sys.exit(1)
acks = [d for d, _ in p.transport.sent]
print("ok", len(acks), "datagram(s) sent")
