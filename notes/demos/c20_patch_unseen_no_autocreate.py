"""C20: match_incoming(unseen address, auto_create=False, patch={...}) raised AttributeError before the fix (returns None after)."""
import sys
from okdmr.dmrlib.storage.repeater_storage import RepeaterStorage
s = RepeaterStorage()
try:
    r = s.match_incoming(address=("10.1.1.1", 50000), patch={"dmr_id": 2305})
except AttributeError as e:
    print("VIOLATED: raises", e)
    sys.exit(1)
print("returns", r, "len", len(s))
sys.exit(0 if r is None and len(s) == 0 else 1)
