"""C19: AutomaticRegistrationService.as_bytes() of a message BUILT from fields depends on whether repr() was called before"""
import sys
from okdmr.dmrlib.motorola.automatic_registration_service import (AutomaticRegistrationService as ARS, FirstHeader, ARSPDUType, ResponseSecondHeader, FailureReason)

def build():
    # a positive acknowledgement (is_acknowledged=False means "not a failure") carrying a refresh time AND a failure reason field
    return ARS(first_header=FirstHeader(has_more_headers=True, is_acknowledged=False, is_control_message=True, pdu_type=ARSPDUType.ARS_DEVICE_OR_QUERY_RESPONSE),
               response_second_header=ResponseSecondHeader(failure_reason=FailureReason.USER_ID_NOT_VALID, refresh_time=5))

def ser(a):
    try:
        return a.as_bytes().hex()
    except Exception as e:
        return f"raises {type(e).__name__}"

a = build(); first = ser(a)
b = build(); repr(b); second = ser(b)
print("as_bytes() on a fresh object      :", first)
print("as_bytes() after repr() was called:", second)
sys.exit(0 if first == second else 1)
