"""Concrete inputs for the KNOWN findings (not part of any check). PYTHONPATH=/repo /venv/bin/python this_file"""
from bitarray import bitarray
from bitarray.util import int2ba
from okdmr.dmrlib.etsi.layer2.pdu.slot_type import SlotType
from okdmr.dmrlib.etsi.layer2.pdu.embedded_signalling import EmbeddedSignalling
from okdmr.dmrlib.etsi.layer2.pdu.data_header import DataHeader
from okdmr.dmrlib.etsi.layer2.pdu.short_link_control import ShortLinkControl
from okdmr.dmrlib.etsi.layer2.pdu.rate12_data import Rate12Data, Rate12DataTypes
from okdmr.dmrlib.etsi.fec.golay_20_8_7 import Golay2087
from okdmr.dmrlib.etsi.fec.quadratic_residue_16_7_6 import QuadraticResidue1676

w = int2ba(0x13, length=8) + bitarray([0] * 12)
print("SlotType word", w.to01(), "codeword:", Golay2087.check(w), "indicator:", SlotType.from_bits(w).fec_parity_ok)
w = int2ba(0b0011010, length=7) + bitarray([0] * 9)
print("EMB word", w.to01(), "codeword:", QuadraticResidue1676.check(w), "indicator:", EmbeddedSignalling.from_bits(w).emb_parity_ok)
h = bitarray([0] * 96); h[4:8] = int2ba(2, length=4); h[20] = 1
print("DataHeader with zero CRC field: crc_ok =", DataHeader.from_bits(h).crc_ok)
s = bitarray([0] * 36); s[3] = 1; s[12] = 1
print("ShortLC with zero CRC field: crc_ok =", ShortLinkControl.from_bits(s).crc_ok)
d = bitarray([0] * 96); d[20] = 1
print("Rate12 confirmed block with zero CRC-9 field: crc9_ok =", Rate12Data.from_bits_typed(d, Rate12DataTypes.Confirmed).crc9_ok)

# ---- C12 known findings
from okdmr.dmrlib.hytera.pdu.location_protocol import GPSData
from datetime import time, date
g = GPSData(data_valid="A", greenwich_time=time(1, 2, 3), greenwich_date=date(2020, 1, 2), north_south="N", latitude=12.5, east_west="E", longitude=13.5, speed_knots=12.5, direction=90)
print("GPSData with speed 12.5 kn serialises to", len(g.as_bytes()), "bytes (fixed size 40)")
from okdmr.dmrlib.hytera.pdu.text_message_protocol import TextMessageProtocol, TMPService
from okdmr.dmrlib.hytera.pdu.radio_ip import RadioIP
t = TextMessageProtocol(opcode=TMPService.SendPrivateMessage, source_ip=RadioIP(radio_id=1), destination_ip=RadioIP(radio_id=2), has_option=True, option_data=b"", text_data="hi", request_id=1)
p = TextMessageProtocol.from_bytes(t.as_bytes())
try:
    p.as_bytes(); print("TMP zero-length option re-encodes")
except TypeError as e:
    print("TMP with option flag and zero-length option data: parsed option_data =", p.option_data, "-> re-encoding raises TypeError:", e)
