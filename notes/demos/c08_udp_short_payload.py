"""C08 / C07: a well-formed data transmission with SAP UDP/IP compression whose payload is too short for the
extended UDP header makes Transmission.process_packet raise (after the 'data ended' notification, before the reset)"""
import sys, traceback
from okdmr.dmrlib.etsi.layer2.elements.burst_types import BurstTypes
from okdmr.dmrlib.transmission.transmission_generator import TransmissionGenerator
from okdmr.dmrlib.transmission.terminal import Terminal
from okdmr.dmrlib.etsi.layer2.burst import Burst
from okdmr.dmrlib.etsi.layer2.pdu.data_header import DataHeader
from okdmr.dmrlib.etsi.layer2.pdu.rate12_data import Rate12Data
from okdmr.dmrlib.etsi.layer2.elements.data_packet_formats import DataPacketFormats
from okdmr.dmrlib.etsi.layer2.elements.sap_identifier import SAPIdentifier
from okdmr.dmrlib.etsi.layer2.elements.full_message_flag import FullMessageFlag
from okdmr.dmrlib.etsi.layer2.elements.fragment_sequence_number import FragmentSequenceNumber


def run(payload, poc):
    header = DataHeader(dpf=DataPacketFormats.DataPacketUnconfirmed, sap_identifier=SAPIdentifier.UDP_IP_compression,
        is_response_requested=False, pad_octet_count=poc, llid_destination=2308092, llid_source=2308094, blocks_to_follow=1,
        fragment_sequence_number=FragmentSequenceNumber.SINGLE_UNCONFIRMED_FRAGMENT_VALUE, full_message_flag=FullMessageFlag.FirstTryToCompletePacket)
    bursts = TransmissionGenerator.generate_full_data_transmission(packet_type=Rate12Data, userdata=payload, data_header=header, csbk_count=1, colour_code=1)
    t = Terminal(1)
    for b in bursts:
        rx = Burst.from_bytes(b.as_bytes(), burst_type=BurstTypes.DataAndControl)
        t.process_incoming_burst(rx, 1)

# 8 octets (one unconfirmed rate 1/2 last block), IPv4 id 0x1234, SAID/DAID 1/1, SPID = DPID = 0 (ports in the extended headers)
try:
    run(bytes.fromhex("1234110000000000"), 0)
except Exception as e:
    traceback.print_exc()
    print("FAIL: processing a well-formed transmission raised", type(e).__name__)
    sys.exit(1)
print("ok")
