"""Self-test corpora (thorough tier): sensitivity and neutrality of each check, measured on scratch copies.

break variants    the confirmed seeded changes committed under /verif/seeded/<seed>/ (patch.diff + meta.json) whose
                  meta.json lists this property under "caught_by": the check must report a violation with the patch applied;
neutral variants  (a) `reformat`: every file the property is anchored in is rewritten with ast.unparse (layout, comments and
                  line numbers change, behaviour does not), (b) `shift`: blank/comment lines are inserted at the top of those
                  files, (c) hand-written behaviour-preserving patches under /verif/selftest/neutral/<Cxx>/*.diff:
                  the check must stay silent.
Scratch copies live under the system temp directory and are removed after each variant.  A patch that no longer applies
to the current working tree is reported as `stale` and skipped.  Outcomes are printed as SELFTEST lines and summarised in
the evidence; they never produce VIOLATION lines and do not change the exit code (the tree under test may differ from the
tree the patches were written for) — `tools/selftest_all.sh` is the maintainer's gate that turns them into a failure."""
from __future__ import annotations

import ast
import importlib
import io
import json
import os
import pathlib
import shutil
import subprocess
import sys
import tempfile
from concurrent.futures import ProcessPoolExecutor
from contextlib import redirect_stdout

from sa.model import AnalysisError, Repo
from sa.report import Ctx, load_known

ROOT = pathlib.Path(__file__).resolve().parent.parent


def variants_for(pid: str):
    out = []
    for meta in sorted((ROOT / "seeded").glob("*/meta.json")):
        try:
            m = json.loads(meta.read_text())
        except Exception:
            continue
        if pid in m.get("caught_by", []) and (meta.parent / "patch.diff").exists():
            out.append({"name": meta.parent.name, "kind": "break", "patch": str(meta.parent / "patch.diff")})
    out.append({"name": "neutral:reformat", "kind": "neutral", "transform": "reformat"})
    out.append({"name": "neutral:shift", "kind": "neutral", "transform": "shift"})
    for p in sorted((ROOT / "selftest" / "neutral" / pid).glob("*.diff")):
        out.append({"name": f"neutral:{p.stem}", "kind": "neutral", "patch": str(p)})
    # behaviour-preserving refactorings written by independent sub-agents for this property (see DESIGN.md, neutral round)
    for meta in sorted((ROOT / "neutral").glob(f"{pid}-N-*/meta.json")):
        if (meta.parent / "patch.diff").exists():
            out.append({"name": f"neutral:{meta.parent.name}", "kind": "neutral", "patch": str(meta.parent / "patch.diff")})
    return out


def anchored_files(pid: str):
    for line in (ROOT / "properties.jsonl").read_text().splitlines():
        d = json.loads(line)
        if d["id"] == pid:
            return [f for f in d.get("anchors", {}).get("files", []) if f.endswith(".py")]
    return []


def _run_variant(args):
    pid, root, v, max_seconds = args
    d = tempfile.mkdtemp(prefix="okdmr-verif-st-")
    try:
        for sub in ("dmrlib", "tests"):
            src = os.path.join(root, "okdmr", sub)
            if os.path.isdir(src):
                shutil.copytree(src, os.path.join(d, "okdmr", sub), ignore=shutil.ignore_patterns("__pycache__"))
        if v.get("patch"):
            r = subprocess.run(["git", "apply", "--whitespace=nowarn", v["patch"]], cwd=d, capture_output=True, text=True)
            if r.returncode != 0:
                return v["name"], "stale", "patch does not apply to the current tree"
        else:
            for rel in anchored_files(pid):
                p = pathlib.Path(d) / rel
                if not p.exists():
                    continue
                src = p.read_text()
                if v["transform"] == "reformat":
                    p.write_text(ast.unparse(ast.parse(src)) + "\n")
                else:
                    p.write_text("# shifted by the self-test\n#\n\n" + src)
        sys.path.insert(0, str(ROOT))
        buf = io.StringIO()
        with redirect_stdout(buf):
            try:
                repo = Repo(d)
                ctx = Ctx(pid, "quick", 0, repo, quiet=True)
                importlib.import_module(f"rules.{pid.lower()}").run(ctx)
            except AnalysisError as e:
                return v["name"], "analysis-error", str(e)[:200]
            except Exception as e:  # the checker crashed on the variant
                return v["name"], "analysis-error", f"{type(e).__name__}: {e}"[:200]
        known = {k["key"] for k in load_known().get("known", []) if k.get("property") == pid}
        failing = [o for o in ctx.obligations if not o["ok"] and o["key"] not in known]
        if v["kind"] == "break":
            if failing:
                return v["name"], "caught", failing[0]["key"][:160]
            if ctx.analysis_errors:
                return v["name"], "analysis-error", ctx.analysis_errors[0][:200]
            return v["name"], "missed", "no rule fired"
        if failing:
            return v["name"], "false-alarm", failing[0]["key"][:160]
        if ctx.analysis_errors:
            return v["name"], "analysis-error", ctx.analysis_errors[0][:200]
        return v["name"], "silent", ""
    finally:
        shutil.rmtree(d, ignore_errors=True)


def run_selftests(ctx, workers=None):
    pid = ctx.pid
    if any(not o["ok"] for o in ctx.obligations) or ctx.analysis_errors:
        known = {k["key"] for k in load_known().get("known", []) if k.get("property") == pid}
        if ctx.analysis_errors or any(not o["ok"] and o["key"] not in known for o in ctx.obligations):
            ctx.selftest = {"variants": 0, "note": "skipped: the tree under test does not pass the check itself"}
            return
    vs = variants_for(pid)
    root = str(ctx.repo.root)
    heavy = pid in ("C02", "C07", "C12", "C05", "C10")
    with ProcessPoolExecutor(max_workers=workers or (4 if heavy else min(12, max(1, len(vs))))) as ex:
        results = list(ex.map(_run_variant, [(pid, root, v, 1800) for v in vs]))
    summary = {"variants": len(vs), "caught": 0, "silent": 0, "missed": [], "false_alarm": [], "stale": [], "analysis_error": []}
    for name, outcome, detail in results:
        print(f"SELFTEST {pid} {name}: {outcome} {detail}")
        if outcome in ("caught", "silent"):
            summary[outcome] += 1
        else:
            summary[outcome.replace("-", "_")].append(name)
    ctx.selftest = summary
    return summary
