"""Self-test corpora for the thorough tier: sensitivity (the rule fires on a scratch copy with one construct
broken) and neutrality (behaviour-preserving edits stay silent).  Variants are AST/text edits of the CURRENT
sources applied to a scratch copy outside /repo and /verif, analysed with the same rules, removed afterwards.
Outcomes are printed as SELFTEST lines and counted in the evidence; they never produce VIOLATION lines."""
from __future__ import annotations

import importlib
import io
import os
import pathlib
import shutil
import sys
import tempfile
from concurrent.futures import ProcessPoolExecutor
from contextlib import redirect_stdout

from sa.model import AnalysisError, Repo
from sa.report import Ctx, load_known

VARIANTS = {}  # pid -> list of dict(name, kind 'break'|'neutral', file, old, new, expect_rule)


def register(pid, name, kind, file, old, new, expect=None, count=1):
    VARIANTS.setdefault(pid, []).append(dict(name=name, kind=kind, file=file, old=old, new=new, expect=expect, count=count))


def _run_variant(args):
    pid, root, v = args
    d = tempfile.mkdtemp(prefix="okdmr-verif-st-")
    try:
        shutil.copytree(os.path.join(root, "okdmr", "dmrlib"), os.path.join(d, "okdmr", "dmrlib"),
                        ignore=shutil.ignore_patterns("__pycache__", "tests"))
        p = pathlib.Path(d) / v["file"]
        src = p.read_text()
        if src.count(v["old"]) < 1:
            return v["name"], "stale", f"anchor text not found in {v['file']}"
        p.write_text(src.replace(v["old"], v["new"], v["count"]))
        try:
            compile(p.read_text(), str(p), "exec")
        except SyntaxError as e:
            return v["name"], "stale", f"variant does not compile: {e}"
        sys.path.insert(0, str(pathlib.Path(__file__).resolve().parent.parent))
        buf = io.StringIO()
        with redirect_stdout(buf):
            try:
                repo = Repo(d)
                ctx = Ctx(pid, "quick", 0, repo, quiet=True)
                importlib.import_module(f"rules.{pid.lower()}").run(ctx)
            except AnalysisError as e:
                return v["name"], "analysis-error", str(e)[:200]
        known = {k["key"] for k in load_known().get("known", []) if k.get("property") == pid}
        failing = [o for o in ctx.obligations if not o["ok"] and o["key"] not in known]
        if ctx.analysis_errors and not failing:
            return v["name"], "analysis-error", ctx.analysis_errors[0][:200]
        if v["kind"] == "break":
            if not failing:
                return v["name"], "missed", "no rule fired"
            if v["expect"] and not any(v["expect"] in o["key"] for o in failing):
                return v["name"], "wrong-rule", failing[0]["key"][:160]
            return v["name"], "caught", failing[0]["key"][:160]
        return (v["name"], "silent", "") if not failing else (v["name"], "false-alarm", failing[0]["key"][:160])
    finally:
        shutil.rmtree(d, ignore_errors=True)


def run_selftests(ctx):
    pid = ctx.pid
    try:
        importlib.import_module(f"selftest.variants_{pid.lower()}")
    except ModuleNotFoundError:
        ctx.selftest = {"variants": 0, "note": "no self-test corpus registered for this property yet"}
        return
    vs = VARIANTS.get(pid, [])
    root = str(ctx.repo.root)
    with ProcessPoolExecutor(max_workers=min(16, max(1, len(vs)))) as ex:
        results = list(ex.map(_run_variant, [(pid, root, v) for v in vs]))
    summary = {"variants": len(vs), "caught": 0, "silent": 0, "missed": [], "false_alarm": [], "stale": [], "analysis_error": [], "wrong_rule": []}
    for name, outcome, detail in results:
        print(f"SELFTEST {pid} {name}: {outcome} {detail}")
        if outcome in ("caught", "silent"):
            summary[outcome] += 1
        else:
            summary[outcome.replace("-", "_")].append(name)
    ctx.selftest = summary
    bad = summary["missed"] + summary["false_alarm"] + summary["stale"] + summary["analysis_error"] + summary["wrong_rule"]
    if bad:
        # the checker, not the code, is what failed: exit 2, never a VIOLATION
        ctx.analysis_errors.append(f"self-test corpus: {len(bad)} variant(s) not handled as expected: {bad[:6]}")
