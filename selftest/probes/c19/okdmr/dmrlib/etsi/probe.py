"""Positive controls for the C19 purity rules: every function below breaks one rule on purpose.
This file is analysed (never executed) by rules/c19.py on each run; the rule must fire on each marked line."""
import functools
import random
from copy import copy
from datetime import date

import numpy
from bitarray import bitarray


class Table:
    ENTRIES = {1: [1, 2], 2: [3]}
    SCRATCH = bitarray([0] * 8)
    COUNTER = 0

    def __init__(self, bits: bitarray = bitarray([0] * 8), options: dict = dict()):
        self.bits = bits
        self.options = options

    @classmethod
    def merged(cls, more: dict) -> dict:
        merged = cls.ENTRIES
        merged.update(more)  # PROBE shared/class-level
        return merged

    @classmethod
    def scratch(cls, data: bitarray) -> bitarray:
        buf = Table.SCRATCH
        buf[0:4] = data[0:4]  # PROBE shared/class-level
        return buf

    @classmethod
    def entry(cls, key: int) -> list:
        e = copy(cls.ENTRIES)
        e[key].append(0)  # PROBE shared/element-of-class-level
        return e[key]

    @staticmethod
    def parse(data: bytes) -> "Table":
        t = Table()
        t.options[data[0]] = data[1]  # PROBE shared/default
        return t

    def as_bits(self) -> bitarray:
        self.bits.reverse()  # PROBE self/toggle
        return self.bits


@functools.lru_cache()
def lookup(width: int) -> list:
    return [bitarray([0] * width) for _ in range(4)]


def use_lookup(width: int, data: bitarray) -> bitarray:
    row = lookup(width)[0]
    row ^= data  # PROBE shared/cached
    return row


def swap(data: bytearray) -> bytes:
    data[0::2], data[1::2] = data[1::2], data[0::2]
    return bytes(data)


def checksum(data: bytearray) -> bytes:
    if not isinstance(data, bytearray):
        data = bytearray(data)
    return swap(data)  # PROBE args/buffer (through the helper)


def decode(bits: bitarray) -> bitarray:
    out = bits
    out.invert()  # PROBE args/buffer (alias)
    return out


def decode_np(table):
    import numpy
    view = numpy.asarray(table)[1:3]
    view[0] = 1  # not attributable without a type: no claim
    return view


def stamp(data: bytes) -> tuple:
    return (date.today(), data)  # PROBE time/clock


def jitter(data: bytes) -> int:
    return random.randint(0, 255) ^ data[0]  # PROBE time/random


def pure_copy(bits: bitarray) -> bitarray:
    out = bits.copy()
    out.invert()
    return out


def pure_rebind(data: bytes) -> bytes:
    data = bytearray(data)
    data[0] = 0
    return bytes(data)


class Memo:
    CACHE: dict = {}

    @classmethod
    def good(cls, key: int) -> int:
        if key not in Memo.CACHE:
            Memo.CACHE[key] = key * 2   # exempt: the key determines the value
        return Memo.CACHE[key]

    @classmethod
    def good_derived(cls, word: bytes, width: int) -> int:
        digest = bytes(word)
        key = (digest, width)
        if key not in Memo.CACHE:
            total = 0
            for octet in digest:
                total = (total * 3 + octet) % (1 << width)
            Memo.CACHE[key] = total   # exempt: everything the value is computed from is preserved by the key
        return Memo.CACHE[key]

    @classmethod
    def bad_partial_key(cls, word: bytes, width: int) -> int:
        if width not in Memo.CACHE:
            Memo.CACHE[width] = sum(word) % (1 << width)   # NOT exempt: the value depends on `word`, the key does not
        return Memo.CACHE[width]

    @classmethod
    def bad_lossy_key(cls, word: bytes) -> int:
        key = len(word)
        if key not in Memo.CACHE:
            Memo.CACHE[key] = sum(word)   # NOT exempt: len(word) does not preserve `word`
        return Memo.CACHE[key]


    @classmethod
    def good_setdefault(cls, word: bytes, even: bool) -> int:
        flag = True if even else False
        key = (bytes(word), flag)
        got = Memo.CACHE.get(key, -1)
        if got < 0:
            total = sum(word) if flag else sum(word) + 1
            got = Memo.CACHE.setdefault(key, total)   # exempt: same store, spelt setdefault; the key determines the value
        return got

    @classmethod
    def bad_setdefault(cls, word: bytes, even: bool) -> int:
        return Memo.CACHE.setdefault(bytes(word), sum(word) if even else sum(word) + 1)   # NOT exempt: `even` is not in the key


@functools.lru_cache()
def cached_bits(n: int) -> bitarray:
    return bitarray(n * [0])


def encode_hands_out_cached(n: int) -> bitarray:
    return cached_bits(n)            # the one cached object goes to every caller


def encode_copies_cached(n: int) -> bitarray:
    return cached_bits(n).copy()     # pure twin: a private copy


class Rows:
    TABLE = numpy.zeros((4, 8), dtype=int)     # class-level table of precomputed words


def encode_hands_out_row(i: int) -> numpy.ndarray:
    return Rows.TABLE[i]                # a view of the class-level table goes to every caller


def encode_copies_row(i: int) -> numpy.ndarray:
    return Rows.TABLE[i].copy()         # pure twin: a private copy


class Context:
    def __init__(self):
        self.header = None

    def attach(self, header) -> "Context":
        self.header = header
        return self


class Renders:
    def __init__(self):
        self.sub = Context()
        self.header = 1

    def __repr__(self) -> str:
        return "R" + str(id(self.sub.attach(self.header)))     # a rendering with a side effect on an object it holds

    def __str__(self) -> str:
        return "R" + str(self.header)                          # pure twin


class LazyLength:
    ONE_SHOT = (n for n in range(3))          # class-level generator: consumed by its first user

    def __init__(self, data: bytes):
        self.data = data
        self._length = None

    def __len__(self) -> int:
        if self._length is None:               # memo on the object: stale once self.data changes
            self._length = len(self.data) + 2
        return self._length

    def as_bytes(self) -> bytes:
        return len(self).to_bytes(2, "big") + self.data


def encode_salted(name: str) -> int:
    return hash(name) & 0xFFFF                 # differs between interpreter processes
